"""Native replay / bounded driver for C12: algorithm equivalences on the real code."""
import sys

import os
# several host devices: the pmap backend then really packs several clients into one block
os.environ['XLA_FLAGS'] = (os.environ.get('XLA_FLAGS', '') + ' --xla_force_host_platform_device_count=3').strip()
import numpy as np

from native import common
import fedjax
import jax
import jax.numpy as jnp
from fedjax.algorithms import apfl, fed_avg, fed_prox, hyp_cluster, mime, mime_lite
from fedjax.core import client_datasets as cds
from fedjax.core import models, optimizers


def pel(params, batch, rng):
  return (batch['x'] @ params['w'] + params['b'] - batch['y']) ** 2


def clients_for(r, sizes):
  rng = np.random.RandomState(50 + r)
  return [(f'c{i}'.encode(), cds.ClientDataset({'x': rng.randn(n, 2).astype(np.float32),
                                                'y': rng.randn(n).astype(np.float32)}), jax.random.PRNGKey(9 * r + i))
          for i, n in enumerate(sizes)]


def params0():
  return {'w': jnp.asarray(np.array([0.4, -0.3], np.float32)), 'b': jnp.asarray(np.float32(0.2))}


def close(a, b, tol=2e-4):
  return all(np.allclose(np.asarray(x), np.asarray(y), rtol=tol, atol=tol / 10)
             for x, y in zip(jax.tree_util.tree_leaves(a), jax.tree_util.tree_leaves(b)))


def run(alg, rounds, get=lambda s: s.params):
  st = alg.init(params0())
  out = []
  for r, sizes in enumerate(rounds):
    st, _ = alg.apply(st, clients_for(r, sizes))
    out.append(jax.tree_util.tree_map(np.asarray, get(st)))
  return out


def check_equiv(inp):
  which, copt_n, rounds = inp['which'], inp['copt'], inp['rounds']
  grad_fn = models.grad(pel)
  mk = {'sgd': lambda: optimizers.sgd(0.05), 'momentum': lambda: optimizers.sgd(0.05, momentum=0.9),
        'adam': lambda: optimizers.adam(0.02)}
  copt, sopt = mk[copt_n](), mk[inp.get('sopt', 'momentum')]()
  hp = cds.ShuffleRepeatBatchHParams(batch_size=2, num_epochs=inp.get('epochs', 2), seed=4)
  php = cds.PaddedBatchHParams(batch_size=3)
  ref = run(fed_avg.federated_averaging(grad_fn, copt, sopt, hp), rounds)
  if which == 'fedprox0':
    if inp.get('sweep'):
      # a sweep over proximal weights in one process, same loss / optimizer objects: every instance uses ITS OWN weight
      other = fed_prox.fed_prox(pel, copt, sopt, hp, 2.0)
      other.apply(other.init(params0()), clients_for(0, rounds[0]))
    got = run(fed_prox.fed_prox(pel, copt, sopt, hp, 0.0), rounds)
  elif which == 'fedprox_pos':
    mu = 0.3
    # FedAvg on the augmented loss needs the server params: emulate with fed_prox's own definition
    def aug_grad_factory():
      return None
    got = run(fed_prox.fed_prox(pel, copt, sopt, hp, mu), rounds)
    # reference: explicit simulation
    st = {'params': params0(), 'opt': sopt.init(params0())}
    ref = []
    for r, sizes in enumerate(rounds):
      deltas, ws = [], []
      for cid, ds, key in clients_for(r, sizes):
        p, os_, rng = st['params'], copt.init(st['params']), key
        for batch in ds.shuffle_repeat_batch(hp):
          rng, use = jax.random.split(rng)
          def loss(pp, batch=batch, use=use):
            pen = 0.5 * mu * sum(jnp.sum((a - b) ** 2) for a, b in zip(
                jax.tree_util.tree_leaves(st['params']), jax.tree_util.tree_leaves(pp)))
            return jnp.mean(pel(pp, batch, use)) + pen
          os_, p = copt.apply(jax.grad(loss)(p), os_, p)
        deltas.append(jax.tree_util.tree_map(lambda a, b: a - b, st['params'], p))
        ws.append(float(len(ds)))
      W = sum(ws)
      mean = jax.tree_util.tree_map(lambda *xs: sum(x * w for x, w in zip(xs, ws)) / W if W else 0 * xs[0], *deltas)
      st['opt'], st['params'] = sopt.apply(mean, st['opt'], st['params'])
      ref.append(jax.tree_util.tree_map(np.asarray, st['params']))
  elif which in ('hyp1', 'hyp1_drop', 'hyp1_reg'):
    hph = cds.ShuffleRepeatBatchHParams(batch_size=2, num_epochs=2, seed=4, drop_remainder=(which == 'hyp1_drop'))
    reg = None
    if which == 'hyp1_reg':
      # the regularizer option: one cluster = FedAvg on grad(per_example_loss, regularizer)
      def reg(params):
        return 0.3 * sum(jnp.sum(x ** 2) for x in jax.tree_util.tree_leaves(params))
      ref = run(fed_avg.federated_averaging(models.grad(pel, reg), copt, sopt, hph), rounds)
    if which == 'hyp1_drop':
      # clients smaller than one batch keep their example weight in FedAvg; one cluster must agree
      ref = run(fed_avg.federated_averaging(grad_fn, copt, sopt, hph), rounds)
    alg = hyp_cluster.hyp_cluster(pel, copt, sopt, php, hph, regularizer=reg)
    st = alg.init([params0()])
    got = []
    for r, sizes in enumerate(rounds):
      st, _ = alg.apply(st, clients_for(r, sizes))
      got.append(jax.tree_util.tree_map(np.asarray, st.cluster_params[0]))
  elif which == 'mimelite_steps':
    # batching given by a step count (num_epochs=None, num_steps=K): the same K local steps as FedAvg, also for clients
    # with fewer than K batches
    base = optimizers.sgd(0.05)
    hps = cds.ShuffleRepeatBatchHParams(batch_size=2, num_epochs=None, num_steps=4, seed=4)
    ref = run(fed_avg.federated_averaging(grad_fn, base, optimizers.sgd(1.0), hps), rounds)
    got = run(mime_lite.mime_lite(pel, base, hps, php, 1.0), rounds)
  elif which == 'mimelite':
    base = optimizers.sgd(0.05)
    ref = run(fed_avg.federated_averaging(grad_fn, base, optimizers.sgd(1.0), hp), rounds)
    got = run(mime_lite.mime_lite(pel, base, hp, php, 1.0), rounds)
  elif which in ('mimelite_pmap', 'fedprox0_pmap'):
    # the same reductions with the pmap backend selected when the algorithm is built: the backend may return the clients in
    # another order (full batches only: pmap stacks the batches of a block)
    from fedjax.core import for_each_client as fec
    base = optimizers.sgd(0.05)
    hpf = cds.ShuffleRepeatBatchHParams(batch_size=2, num_epochs=1, seed=4)
    ref = run(fed_avg.federated_averaging(grad_fn, base, optimizers.sgd(1.0), hpf), rounds)
    with fec.for_each_client_backend('pmap'):
      alg = (mime_lite.mime_lite(pel, base, hpf, cds.PaddedBatchHParams(batch_size=2), 1.0) if which == 'mimelite_pmap'
             else fed_prox.fed_prox(pel, base, optimizers.sgd(1.0), hpf, 0.0))
    got = run(alg, rounds)
  elif which == 'mime1':
    base = optimizers.sgd(0.05)
    hp1 = cds.ShuffleRepeatBatchHParams(batch_size=2, num_epochs=None, num_steps=1, seed=4)
    got = run(mime.mime(pel, base, hp1, php, 0.7), rounds)
    st = params0()
    ref = []
    for r, sizes in enumerate(rounds):
      cl = clients_for(r, sizes)
      tot = sum(len(d) for _, d, _ in cl)
      full = jax.tree_util.tree_map(jnp.zeros_like, st)
      for _, d, _ in cl:
        if len(d):
          g = jax.grad(lambda pp: jnp.sum(pel(pp, d.all_examples(), None)))(st)
          full = jax.tree_util.tree_map(jnp.add, full, g)
      full = jax.tree_util.tree_map(lambda x: x / tot if tot else 0 * x, full)
      # weighted mean of eta*c over clients with examples weight = eta*c (all equal), scaled by server lr
      has = sum(len(d) for _, d, _ in cl) > 0
      st = jax.tree_util.tree_map(lambda p, c: p - 0.7 * 0.05 * c if has else p, st, full)
      ref.append(jax.tree_util.tree_map(np.asarray, st))
  elif which == 'mime1_keyed':
    # a loss that USES its key (input dropout): in the single local step g(w;b,k) - g(w;b,k) must still cancel
    from fedjax.core import tree_util

    def pel_drop(params, batch, rng):
      keep = jax.random.bernoulli(rng, 0.5, batch['x'].shape)
      x = jnp.where(keep, batch['x'] * 2.0, 0.)
      return (x @ params['w'] + params['b'] - batch['y']) ** 2
    base = optimizers.sgd(0.05)
    hp1 = cds.ShuffleRepeatBatchHParams(batch_size=8, num_epochs=1, seed=4)
    alg = mime.mime(pel_drop, base, hp1, php, 0.7)
    grads_fec = mime.create_grads_for_each_client(models.grad(pel_drop))
    st = alg.init(params0())
    got, ref = [], []
    for r, sizes in enumerate(rounds):
      cl = clients_for(r, sizes)
      gs, ns = tree_util.tree_sum(co for _, co in grads_fec(st.params, [(c, d.padded_batch(php), k) for c, d, k in cl]))
      c_full = tree_util.tree_inverse_weight(gs, ns)
      ref.append(jax.tree_util.tree_map(lambda p_, g_: np.asarray(p_ - 0.7 * 0.05 * g_), st.params, c_full))
      st, _ = alg.apply(st, cl)
      got.append(jax.tree_util.tree_map(np.asarray, st.params))
  elif which == 'apfl_zero':
    # a client WITH examples whose local update is exactly zero (its data give a zero gradient): it still carries its
    # example count in the weighted mean, exactly as in FedAvg
    def pel_nb(params, batch, rng):
      return (batch['x'] @ params['w'] - batch['y']) ** 2 + 0.0 * params['b']
    g0 = models.grad(pel_nb)

    def with_zero(r, sizes):
      return clients_for(r, sizes) + [(b'zero', cds.ClientDataset({'x': np.zeros((5, 2), np.float32), 'y': np.zeros(5, np.float32)}),
                                       jax.random.PRNGKey(77 + r))]

    def run0(alg):
      st, out = alg.init(params0()), []
      for r, sizes in enumerate(rounds):
        st, _ = alg.apply(st, with_zero(r, sizes))
        out.append(jax.tree_util.tree_map(np.asarray, st.params))
      return out
    ref = run0(fed_avg.federated_averaging(g0, copt, sopt, hp))
    got = run0(apfl.adaptive_personalized_federated_learning(g0, copt, sopt, hp, 0.5))
  elif which == 'apfl':
    got = run(apfl.adaptive_personalized_federated_learning(grad_fn, copt, sopt, hp, 0.5), rounds)
  for r, (a, b) in enumerate(zip(got, ref)):
    if not close(a, b):
      return f'{which} (client opt {copt_n}): round {r + 1} params {a} differ from the reference {b}'


def sweep_equiv(tier, seed):
  R = [[3, 4], [2, 0, 5], [4, 1]]
  for c in ('sgd', 'momentum', 'adam'):
    yield dict(which='fedprox0', copt=c, rounds=R)
    yield dict(which='apfl', copt=c, rounds=R)
  yield dict(which='apfl_zero', copt='sgd', rounds=R)
  yield dict(which='fedprox_pos', copt='sgd', rounds=R)
  yield dict(which='fedprox_pos', copt='momentum', rounds=R)
  yield dict(which='hyp1', copt='sgd', rounds=R)
  yield dict(which='hyp1', copt='momentum', rounds=R)
  yield dict(which='hyp1_reg', copt='sgd', rounds=R)
  yield dict(which='mimelite_steps', copt='sgd', rounds=[[3, 5], [1, 9, 2]])
  yield dict(which='fedprox0', copt='sgd', rounds=R, sweep=True)
  yield dict(which='hyp1_drop', copt='momentum', rounds=[[1, 4], [3, 1, 1], [5, 2]])
  yield dict(which='mimelite', copt='sgd', rounds=R)
  yield dict(which='mimelite_pmap', copt='sgd', rounds=[[2, 4, 6], [4, 2]])
  yield dict(which='fedprox0_pmap', copt='sgd', rounds=[[2, 6, 4]])
  yield dict(which='mime1', copt='sgd', rounds=[[3, 4], [2, 5]])
  yield dict(which='mime1_keyed', copt='sgd', rounds=[[3, 4], [2, 5, 1]])


CHECKERS = {'equiv': (check_equiv, sweep_equiv)}

if __name__ == '__main__':
  sys.exit(common.main(CHECKERS))
