"""Native replay / bounded driver for C03 (runs the real fedjax code)."""
import itertools
import sys

import numpy as np

from native import common
common.light_fedjax()
from fedjax.core import client_datasets as cds


def ref_pick(d, b, k):
  rem = d % b
  if rem == 0:
    return b
  cands = []
  x = b
  for _ in range(k):
    cands.append(x)
    x //= 2
  ok = [c for c in cands if c >= rem]
  return min(ok)


def check_pick(inp):
  d, b, k = inp['data_size'], inp['batch_size'], inp['num_batch_size_buckets']
  if d < 0 or b < 1 or k < 1:
    return None
  got = cds._pick_final_batch_size(d, b, k)
  want = ref_pick(d, b, k)
  if got != want:
    return f'_pick_final_batch_size({d},{b},{k}) = {got}, reference {want}'


def sweep_pick(tier, seed):
  hi = 40 if tier == 'quick' else 130
  for b in range(1, hi):
    for k in range(1, 8):
      for d in list(range(0, 2 * b + 2)):
        yield dict(data_size=d, batch_size=b, num_batch_size_buckets=k)


def make_ds(n, with_pre=True, sliced=False):
  raw = {'x': np.arange(n, dtype=np.int32) + 1,
         'y': (np.arange(n * 6, dtype=np.float32).reshape(n, 2, 3) + 1)}
  keep = {k: v.copy() for k, v in raw.items()}
  if sliced:
    # the same dataset obtained as a slice of a larger one that has already been measured and iterated
    big = {k: np.concatenate([np.zeros_like(v[:2]) - 5, v, np.zeros_like(v[:3]) - 7]) for k, v in raw.items()}
    pre = (cds.BatchPreprocessor([lambda e: {**e, 'z': e['x'] * 2 + 7}, lambda e: {**e, 'u': e['z'] - 1}]) if with_pre
           else cds.NoOpBatchPreprocessor)
    parent = cds.ClientDataset(big, pre)
    len(parent)
    list(parent.batch(batch_size=2))
    list(parent.padded_batch(batch_size=3))
    return parent[2:2 + n], keep, with_pre
  if with_pre == 'inplace':
    # preprocessing functions that work on the dict they are given (legal: the preprocessor hands them a copy of the dict)
    def f1(e):
      e['z'] = e['x'] * 2 + 7
      return e

    def f2(e):
      e['u'] = e['z'] - 1
      return e
    pre = cds.BatchPreprocessor([f1, f2])
  elif with_pre:
    # a chain of per-example preprocessors that does NOT map 0 to 0 (padding is added after preprocessing: padded rows are 0)
    pre = cds.BatchPreprocessor([lambda e: {**e, 'z': e['x'] * 2 + 7}, lambda e: {**e, 'u': e['z'] - 1}])
  else:
    pre = cds.NoOpBatchPreprocessor
  return cds.ClientDataset(raw, pre), keep, with_pre


def expected(keep, with_pre):
  out = dict(keep)
  if with_pre:
    out['z'] = keep['x'] * 2 + 7
    out['u'] = out['z'] - 1
  return out


def check_batch(inp):
  n, b, drop = inp['N'], inp['batch_size'], bool(inp['drop_remainder'])
  if n < 0 or b < 1:
    return None
  ds, keep, wp = make_ds(n, inp.get('pre', True), inp.get('sliced', False))
  view = ds.batch(batch_size=b, drop_remainder=drop)
  if inp.get('peek'):
    for _ in zip(range(inp['peek']), view):
      pass
  first = list(view)
  second = list(view)
  exp = expected(keep, wp)
  if len(first) != len(second):
    return 'second iteration differs in length'
  for a, c in zip(first, second):
    for k in a:
      if not np.array_equal(a[k], c[k]):
        return 'second iteration differs'
  for k, v in keep.items():
    if not np.array_equal(ds.raw_examples[k], v):
      return 'dataset mutated'
  sizes = [len(x['x']) for x in first]
  if any(s != b for s in sizes[:-1]):
    return f'non-final batch not full: {sizes}'
  if sizes and not 1 <= sizes[-1] <= b:
    return f'bad last batch size {sizes}'
  total = sum(sizes)
  if drop:
    if any(s != b for s in sizes):
      return f'drop_remainder kept a short batch {sizes}'
    if not 0 <= n - total < b:
      return f'drop_remainder removed more than the incomplete final batch: {sizes} of {n}'
  elif total != n:
    return f'lost or duplicated rows: {sizes} of {n}'
  for k, v in exp.items():
    cat = np.concatenate([x[k] for x in first], axis=0) if first else v[:0]
    if not np.array_equal(cat, v[:total]):
      return f'feature {k} not an order-preserving prefix'
    if first and cat.dtype != v.dtype:
      return 'dtype changed'


def sweep_batch(tier, seed):
  hi = 11 if tier == 'quick' else 26
  for n in range(0, hi):
    for b in range(1, hi + 2):
      for drop in (False, True):
        yield dict(N=n, batch_size=b, drop_remainder=drop, pre=(n + b) % 2 == 0)
  for n, b in ((7, 3), (5, 1), (9, 4)):
    for peek in (1, 2):
      yield dict(N=n, batch_size=b, drop_remainder=False, pre=True, peek=peek)
  for n, b in ((3, 2), (0, 2), (5, 5), (4, 3)):
    yield dict(N=n, batch_size=b, drop_remainder=False, pre=True, sliced=True)
  for n, b in ((3, 2), (3, 3), (4, 9), (1, 1)):
    yield dict(N=n, batch_size=b, drop_remainder=False, pre='inplace')


def check_padded(inp):
  n, b, k = inp['N'], inp['batch_size'], inp['num_batch_size_buckets']
  if n < 0 or b < 1 or k < 1:
    return None
  ds, keep, wp = make_ds(n, inp.get('pre', True), inp.get('sliced', False))
  view = ds.padded_batch(batch_size=b, num_batch_size_buckets=k)
  if inp.get('peek'):
    # a partial pass first (a peek at the first batch, a consumer that stops early): later passes are still complete
    for _ in zip(range(inp['peek']), view):
      pass
  first = list(view)
  second = list(view)
  exp = expected(keep, wp)
  if len(first) != len(second):
    return 'second iteration differs in length'
  for a, c in zip(first, second):
    if set(a) != set(c):
      return 'second iteration differs'
    for kk in a:
      if not np.array_equal(a[kk], c[kk]):
        return 'second iteration differs'
  for kk, v in keep.items():
    if not np.array_equal(ds.raw_examples[kk], v):
      return 'dataset mutated'
  if set(ds.raw_examples) != set(keep):
    return f'iterating changed the features of the dataset itself: {sorted(ds.raw_examples)} (was {sorted(keep)})'
  M = cds.EXAMPLE_MASK_KEY
  real = {kk: [] for kk in exp}
  for i, batch in enumerate(first):
    if M not in batch:
      return 'mask missing'
    m = batch[M]
    if m.dtype != np.bool_:
      return 'mask dtype'
    c = int(m.sum())
    if not np.array_equal(m, np.arange(len(m)) < c):
      return f'mask is not a prefix: {m}'
    last = i == len(first) - 1
    want_size = b if (not last or n % b == 0) else ref_pick(n, b, k)
    if len(m) != want_size:
      return f'batch {i} has {len(m)} rows, expected {want_size}'
    if not last and c != b:
      return f'non-final batch {i} has {c} real rows'
    if c < 1:
      return 'batch without real rows'
    for kk, v in exp.items():
      col = batch[kk]
      if len(col) != len(m):
        return f'feature {kk} has {len(col)} rows vs mask {len(m)}'
      if col.dtype != v.dtype or col.shape[1:] != v.shape[1:]:
        return f'dtype/trailing shape of {kk} changed'
      if np.any(col[c:] != 0):
        return f'padded rows of {kk} are not zero'
      real[kk].append(col[:c])
  for kk, v in exp.items():
    cat = np.concatenate(real[kk], axis=0) if real[kk] else v[:0]
    if not np.array_equal(cat, v):
      return f'real rows of {kk} are not the dataset in order'


def sweep_padded(tier, seed):
  hi = 11 if tier == 'quick' else 24
  for n in range(0, hi):
    for b in range(1, hi + 2):
      for k in (1, 2, 3, 5):
        yield dict(N=n, batch_size=b, num_batch_size_buckets=k, pre=(n + b + k) % 2 == 0)
  for n, b in ((7, 3), (5, 1), (9, 4)):
    for peek in (1, 2):
      yield dict(N=n, batch_size=b, num_batch_size_buckets=2, pre=True, peek=peek)
  for n, b in ((3, 2), (0, 2), (5, 5), (4, 3)):
    yield dict(N=n, batch_size=b, num_batch_size_buckets=2, pre=True, sliced=True)
  for n, b in ((3, 2), (3, 3), (4, 9), (1, 1)):
    yield dict(N=n, batch_size=b, num_batch_size_buckets=2, pre='inplace')


def check_helpers(inp):
  n, a, c, size = inp['N'], inp['lo'], inp['hi'], inp['size']
  ex = {'x': np.arange(n, dtype=np.int16), 'y': np.arange(n * 2, dtype=np.float64).reshape(n, 2),
        'flag': (np.arange(n) % 2 == 0), 'u8': np.arange(n, dtype=np.uint8), 'u32': np.arange(n, dtype=np.uint32) + 7,
        'h': np.arange(n, dtype=np.float16), 's': np.array([b'ab'] * n, dtype='S2')}
  keep = {k: v.copy() for k, v in ex.items()}
  s = cds.slice_examples(ex, slice(a, c))
  for k in ex:
    if not np.array_equal(s[k], keep[k][a:c]):
      return 'slice_examples wrong'
  if set(s) != set(ex):
    return 'slice_examples changed features'
  if n > 0 or True:
    if cds.num_examples(ex) != n:
      return 'num_examples wrong'
  if size >= n:
    p = cds.pad_examples(ex, size)
    m = p[cds.EXAMPLE_MASK_KEY]
    if not np.array_equal(m, np.arange(size) < n):
      return 'pad mask wrong'
    for k in ex:
      if p[k].dtype != ex[k].dtype or p[k].shape != (size,) + ex[k].shape[1:]:
        return f'pad_examples changes the dtype / shape of feature {k!r}: {ex[k].dtype}{ex[k].shape} -> {p[k].dtype}{p[k].shape}'
      if not np.array_equal(p[k][:n], keep[k]) or np.any(p[k][n:] != np.zeros((), ex[k].dtype)):
        return 'pad content'
  else:
    try:
      cds.pad_examples(ex, size)
      return 'pad_examples accepted a too small size'
    except ValueError:
      pass
  mask = np.ones([n], dtype=np.bool_)
  am = cds.attach_mask(ex, mask)
  if set(am) != set(ex) | {cds.EXAMPLE_MASK_KEY} or am[cds.EXAMPLE_MASK_KEY] is not mask:
    return 'attach_mask wrong'
  for k in ex:
    if not np.array_equal(ex[k], keep[k]):
      return 'helper mutated its input'


def sweep_helpers(tier, seed):
  for n in range(0, 6):
    for a in (None, -7, -2, 0, 1, 3, 9):
      for c in (None, -7, -1, 0, 2, 5, 9):
        for size in (0, 1, n, n + 2):
          yield dict(N=n, lo=a, hi=c, size=size)


def check_entry(inp):
  """hparams object + keyword overrides at the public entry points: every override wins, falsy ones included."""
  n, b = inp['N'], inp['batch_size']
  d = cds.ClientDataset({'x': np.arange(n)})
  for drop_hp in (True, False):
    for drop_kw in (True, False):
      got = [len(x['x']) for x in d.batch(cds.BatchHParams(batch_size=b, drop_remainder=drop_hp), drop_remainder=drop_kw)]
      want = [len(x['x']) for x in d.batch(batch_size=b, drop_remainder=drop_kw)]
      if got != want:
        return (f'batch(BatchHParams(batch_size={b}, drop_remainder={drop_hp}), drop_remainder={drop_kw}) on {n} examples gives '
                f'batch sizes {got}; the keyword override alone gives {want}')
      hp = cds.ShuffleRepeatBatchHParams(batch_size=b, num_epochs=2, drop_remainder=drop_hp, seed=1)
      got = len(list(d.shuffle_repeat_batch(hp, drop_remainder=drop_kw)))
      want = len(list(d.shuffle_repeat_batch(batch_size=b, num_epochs=2, drop_remainder=drop_kw, seed=1)))
      if got != want:
        return f'shuffle_repeat_batch(hparams(drop_remainder={drop_hp}), drop_remainder={drop_kw}): {got} batches, expected {want}'
  got = len(list(d.shuffle_repeat_batch(cds.ShuffleRepeatBatchHParams(batch_size=b, num_epochs=1, num_steps=3), num_epochs=None)))
  if got != 3:
    return f'shuffle_repeat_batch(hparams(num_epochs=1, num_steps=3), num_epochs=None) on {n} examples: {got} batches, expected 3'


def sweep_entry(tier, seed):
  for n in (1, 5, 6):
    for b in (2, 3, 7):
      yield dict(N=n, batch_size=b)


CHECKERS = {
    'entry': (check_entry, sweep_entry),
    '_pick_final_batch_size': (check_pick, sweep_pick),
    'BatchView': (check_batch, sweep_batch),
    'PaddedBatchView': (check_padded, sweep_padded),
    'helpers': (check_helpers, sweep_helpers),
}

if __name__ == '__main__':
  sys.exit(common.main(CHECKERS))
