"""Native replay / bounded driver for C02: for_each_client backends and backend selection."""
import json
import os
import subprocess
import sys
import threading

DEV = int(os.environ.get('C02_DEVICES', '3'))
os.environ['XLA_FLAGS'] = (os.environ.get('XLA_FLAGS', '') + f' --xla_force_host_platform_device_count={DEV}').strip()

import numpy as np

from native import common
common.light_fedjax()
import jax
import jax.numpy as jnp
from fedjax.core import for_each_client as fec


def program(nan_pad):
  def init(shared, ci):
    return {'a': shared['w'] * 1.0 + ci['c'], 'n': jnp.int32(0), 'flag': jnp.asarray(True), 'isum': jnp.int32(0)}

  def step(st, b):
    # on an all-zero padding batch this step produces NaN / Inf
    bad = 1.0 / jnp.sum(jnp.abs(b['x'])) if nan_pad else 0.0
    scale = jnp.where(jnp.sum(jnp.abs(b['x'])) > 0, 0.0, bad) if nan_pad else 0.0
    a = st['a'] * 0.5 + b['x'] + scale * 0 + (jnp.log(jnp.sum(jnp.abs(b['x']))) * 0 if nan_pad else 0)
    return ({'a': a, 'n': st['n'] + 1, 'flag': jnp.logical_not(st['flag']), 'isum': st['isum'] + b['i'] * jnp.where(b['m'], 1, 0)},
            {'norm': jnp.sum(b['x'] * b['x']) + (jnp.log(jnp.sum(jnp.abs(b['x']))) * 0 if nan_pad else 0), 'k': st['n'], 'i': b['i']})

  def final(shared, st):
    return {'out': st['a'] - shared['w'], 'n': st['n'], 'flag': st['flag'], 'isum': st['isum']}
  return init, step, final


def reference(shared, clients, nan_pad):
  init, step, final = program(nan_pad)
  out = []
  for cid, batches, ci in clients:
    st = init(shared, ci)
    res = []
    for b in batches:
      st, r = step(st, b)
      res.append(r)
    out.append((cid, final(shared, st), res))
  return out


def make_clients(counts, seed):
  rs = np.random.RandomState(seed)
  clients = []
  for i, nb in enumerate(counts):
    # integer (beyond float32's 2^24 exact range) and boolean batch leaves next to the float one: dtypes are part of the result
    batches = [{'x': jnp.asarray(rs.rand(3).astype(np.float32) + 0.1), 'i': jnp.asarray(np.int32(16777217 + 2 * j + i)),
                'm': jnp.asarray(bool((i + j) % 2 == 0))} for j in range(nb)]
    # client ids are arbitrary hashables: include falsy ones (0, b'')
    cid = {0: 0, 1: b''}.get(i, b'client_%d' % i) if len(counts) >= 3 else b'client_%d' % i
    clients.append((cid, batches, {'c': jnp.asarray(rs.rand(3).astype(np.float32))}))
  return clients


def tolist(t):
  return jax.tree_util.tree_map(lambda x: np.asarray(x).tolist(), t)


def close(a, b):
  la, lb = jax.tree_util.tree_leaves(a), jax.tree_util.tree_leaves(b)
  if len(la) != len(lb):
    return False
  for x, y in zip(la, lb):
    # integer / boolean leaves are exact (a detour through float32 rounds integers above 2^24)
    if np.asarray(y).dtype.kind in 'iub' and not np.array_equal(np.asarray(x), np.asarray(y)):
      return False
  return all(np.asarray(x).shape == np.asarray(y).shape and np.asarray(x).dtype == np.asarray(y).dtype and np.allclose(np.asarray(x, np.float64), np.asarray(y, np.float64),
                                                                         rtol=1e-5, atol=1e-6, equal_nan=False)
             and np.all(np.isfinite(np.asarray(x, np.float64))) for x, y in zip(la, lb))


def check_backends(inp):
  dev = int(inp.get('devices', DEV))
  if dev != DEV:
    env = dict(os.environ, C02_DEVICES=str(dev))
    env.pop('XLA_FLAGS', None)
    r = subprocess.run([sys.executable, os.path.abspath(__file__)], input=json.dumps({'mode': 'one', 'fn': 'backends', 'input': inp}),
                       capture_output=True, text=True, env=env, timeout=600)
    for line in r.stdout.splitlines():
      if line.startswith('NATIVE-RESULT '):
        res = json.loads(line[len('NATIVE-RESULT '):])
        return res.get('message') if res.get('failed') else None
    return f'worker for {dev} devices produced no result: {r.stderr[-300:]}'
  counts = inp.get('counts', [2, 0, 1])
  nan_pad = bool(inp.get('nan_pad', True))
  shared = {'w': jnp.asarray([1.0, 2.0, 3.0])}
  clients = make_clients(counts, inp.get('seed', 0))
  want = {cid: (o, r) for cid, o, r in reference(shared, clients, nan_pad)}
  before = (tolist(shared), [tolist((b, ci)) for _, b, ci in clients])
  init, step, final = program(nan_pad)
  for be in inp.get('backends', ['jit', 'debug', 'pmap']):
    with fec.for_each_client_backend(be):
      for with_res in (True, False):
        if with_res:
          f = fec.for_each_client(init, step, final, with_step_result=True)
        else:
          f = fec.for_each_client(init, lambda s, b: step(s, b)[0], final)
        try:
          got = list(f(shared, clients))
        except Exception as e:  # pylint: disable=broad-except
          return f'{be} backend ({dev} devices, batch counts {counts}): {type(e).__name__}: {str(e)[:200]}'
        ids = [g[0] for g in got]
        if sorted(map(repr, ids)) != sorted(map(repr, want)) or len(ids) != len(want):
          return f'{be} backend ({dev} devices, batch counts {counts}): results for ids {ids}, expected exactly one per input client'
        if be != 'pmap' and ids != [c[0] for c in clients]:
          return f'{be} backend: results are not in client order'
        for g in got:
          o_want, r_want = want[g[0]]
          if not close(g[1], o_want):
            return (f'{be} backend ({dev} devices, batch counts {counts}): output of {g[0]!r} is {tolist(g[1])}, the sequential fold '
                    f'gives {tolist(o_want)}')
          if with_res:
            if len(g[2]) != len(r_want):
              return f'{be} backend ({dev} devices, counts {counts}): {len(g[2])} step results for {g[0]!r} with {len(r_want)} batches'
            for x, y in zip(g[2], r_want):
              if not close(x, y):
                return f'{be} backend ({dev} devices, counts {counts}): a step result of {g[0]!r} differs from the fold: {tolist(x)} vs {tolist(y)}'
    if inp.get('reuse'):
      # the SAME for_each_client function called again with the SAME shared container whose content the caller has replaced in
      # between: the result is the fold over the values passed to THIS call
      with fec.for_each_client_backend(be):
        f = fec.for_each_client(init, lambda s, b: step(s, b)[0], final)
        box = {'w': shared['w']}
        first = list(f(box, clients))
        # the normal multi-round loop: the next shared input is computed from this call's outputs (arrays that live on a
        # device of the backend), and replaces the content of the same container
        box['w'] = sum(o['out'] for _, o in first) / max(len(first), 1) * 0.5 + shared['w'] * 3.0 + 1.0
        try:
          got2 = list(f(box, clients))
        except Exception as e:  # pylint: disable=broad-except
          return (f'{be} backend ({dev} devices): a second call whose shared input was computed from the first call\'s outputs '
                  f'fails: {type(e).__name__}: {str(e)[:200]}')
      want2 = {cid: o for cid, o, _ in reference(box, clients, nan_pad)}
      for g in got2:
        if not close(g[1], want2[g[0]]):
          return (f'{be} backend ({dev} devices): second call of the same for_each_client function with the same shared container '
                  f'(content replaced in between): output of {g[0]!r} is {tolist(g[1])}, the fold over the current shared values '
                  f'gives {tolist(want2[g[0]])}')
    try:
      after = (tolist(shared), [tolist((b, ci)) for _, b, ci in clients])
    except Exception as e:  # pylint: disable=broad-except
      return f"{be} backend: the caller's inputs are no longer valid after the call: {type(e).__name__}: {str(e)[:120]}"
    if after != before:
      return f"{be} backend changed the caller's shared input / client inputs / batches"


def sweep_backends(tier, seed):
  shapes = [[], [0], [2], [2, 0, 1], [1, 3, 2], [0, 2], [1, 1, 1, 1], [0, 0], [3, 1, 0, 2, 1]]
  for counts in shapes:
    yield dict(devices=DEV, counts=counts, nan_pad=True, seed=seed)
  yield dict(devices=DEV, counts=[2, 1, 3], nan_pad=True, seed=seed, reuse=True)
  devs = (1, 2, 8) if tier != 'thorough' else (1, 2, 4, 5, 6, 7, 8)
  for d in devs:
    yield dict(devices=d, counts=[3, 1, 0, 2, 1], nan_pad=True, seed=seed)
    if tier == 'thorough':
      yield dict(devices=d, counts=[1, 0, 2], nan_pad=True, seed=seed + 1)


def check_context(inp):
  kind = inp['kind']
  fec.set_for_each_client_backend(None)
  start = fec._BACKEND_CHOICE.backend
  if kind == 'exception':
    for be in ('debug', 'jit', 'pmap', fec.ForEachClientDebugBackend()):
      try:
        with fec.for_each_client_backend(be):
          raise RuntimeError('boom')
      except RuntimeError:
        pass
      if fec._BACKEND_CHOICE.backend is not start:
        return f'backend not restored after the context for {be!r} exited by an exception: {type(fec._BACKEND_CHOICE.backend).__name__}'
  if kind == 'nested':
    outer = fec.ForEachClientDebugBackend()
    with fec.for_each_client_backend(outer):
      try:
        with fec.for_each_client_backend('jit'):
          if not isinstance(fec.get_for_each_client_backend(), fec.ForEachClientJitBackend):
            return 'inner context does not select the jit backend'
          raise KeyError('x')
      except KeyError:
        pass
      if fec.get_for_each_client_backend() is not outer:
        return 'outer backend not restored after the inner context raised'
    if fec._BACKEND_CHOICE.backend is not start:
      return 'backend not restored after nested contexts'
  if kind == 'unknown':
    try:
      with fec.for_each_client_backend('nope'):
        return 'the body ran for an unknown backend name'
    except ValueError:
      pass
    if fec._BACKEND_CHOICE.backend is not start:
      return 'an unknown backend name changed the selection'
  if kind == 'threads_overlap':
    return check_threads_overlap()
  if kind == 'threads':
    seen = {}
    ev1, ev2 = threading.Event(), threading.Event()

    def worker():
      seen['before'] = type(fec.get_for_each_client_backend()).__name__
      ev1.set()
      ev2.wait(5)
      seen['after'] = type(fec.get_for_each_client_backend()).__name__
    t = threading.Thread(target=worker)
    with fec.for_each_client_backend('debug'):
      t.start()
      ev1.wait(5)
      mine = type(fec.get_for_each_client_backend()).__name__
    ev2.set()
    t.join()
    if mine != 'ForEachClientDebugBackend' or seen.get('before') != 'ForEachClientJitBackend' or seen.get('after') != 'ForEachClientJitBackend':
      return f'backend selection leaks across threads: main {mine}, other thread {seen}'


def check_threads_overlap():
  """A enters, B enters, A exits, B exits (overlapping, not nested): each thread must get its own previous backend back."""
  res = {}
  a_in, b_in, a_out = threading.Event(), threading.Event(), threading.Event()
  mark_a, mark_b = fec.ForEachClientDebugBackend(), fec.ForEachClientDebugBackend()

  def thread_a():
    fec.set_for_each_client_backend(mark_a)
    with fec.for_each_client_backend('jit'):
      a_in.set()
      b_in.wait(5)
    res['a_after'] = fec.get_for_each_client_backend()
    a_out.set()

  def thread_b():
    fec.set_for_each_client_backend(mark_b)
    a_in.wait(5)
    with fec.for_each_client_backend('debug'):
      b_in.set()
      a_out.wait(5)
    res['b_after'] = fec.get_for_each_client_backend()
  ta, tb = threading.Thread(target=thread_a), threading.Thread(target=thread_b)
  ta.start(); tb.start(); ta.join(); tb.join()
  if res.get('a_after') is not mark_a or res.get('b_after') is not mark_b:
    return ('overlapping backend contexts in two threads: after exit thread A has '
            f'{type(res.get("a_after")).__name__}{"" if res.get("a_after") is mark_a else " (not its own previous backend)"}, thread B has '
            f'{type(res.get("b_after")).__name__}{"" if res.get("b_after") is mark_b else " (not its own previous backend)"}')


def sweep_context(tier, seed):
  for k in ('exception', 'nested', 'unknown', 'threads', 'threads_overlap'):
    yield dict(kind=k)


CHECKERS = {'backends': (check_backends, sweep_backends), 'context': (check_context, sweep_context)}

if __name__ == '__main__':
  sys.exit(common.main(CHECKERS))
