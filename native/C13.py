"""Native replay / bounded driver for C13 (real samplers)."""
import itertools
import sys

import numpy as np

from native import common
common.light_fedjax()
import jax
from fedjax.core import client_samplers as cs
from fedjax.core import in_memory_federated_data as imfd

IDS = [b'a', b'a\x00', b'a\x00\x00', b'b', b'ba', b'c\x00', b'd', b'e']


def mkfd(n):
  return imfd.InMemoryFederatedData({cid: {'x': np.arange(i + 1)} for i, cid in enumerate(IDS[:n])})


def triple(t):
  return [(cid, ds.raw_examples['x'].tolist(), np.asarray(k).tolist()) for cid, ds, k in t]


def check_get(inp):
  n, cohort, seed, rounds = inp['n'], inp['cohort'], inp['seed'], inp['rounds']
  fd = mkfd(n)
  ref = {}
  for r in sorted(set(rounds)):
    s = cs.UniformGetClientSampler(fd, cohort, seed, start_round_num=r)
    ref[r] = triple(s.sample())
    ids = [c for c, _, _ in ref[r]]
    if len(set(ids)) != cohort:
      return f'round {r}: client repeated / wrong cohort size: {ids}'
    if any(c not in IDS[:n] for c in ids):
      return f'round {r}: id not in the dataset (truncated?): {ids}'
    want_keys = np.asarray(jax.random.split(jax.random.PRNGKey(r), cohort)).tolist()
    if [k for _, _, k in ref[r]] != want_keys:
      return f'round {r}: keys are not split(PRNGKey(round), cohort)'
    for cid, xs, _ in ref[r]:
      if xs != list(range(IDS.index(cid) + 1)):
        return f'round {r}: dataset of {cid!r} is not its own'
  # one sampler visiting the rounds in the requested order (jumps, repeats)
  s = cs.UniformGetClientSampler(fd, cohort, seed, start_round_num=0)
  np.random.seed(12345)
  for r in rounds:
    s.set_round_num(r)
    got = triple(s.sample())
    if got != ref[r]:
      return f'round {r} after history {rounds}: differs from a fresh sampler seated at {r}'
    nxt = triple(s.sample())
    s2 = cs.UniformGetClientSampler(fd, cohort, seed, start_round_num=r + 1)
    if nxt != triple(s2.sample()):
      return f'round {r + 1} reached sequentially differs from a restart at {r + 1}'
    np.random.rand()


def sweep_get(tier, seed):
  for n in (1, 2, 5, 8):
    for cohort in sorted({1, max(1, n // 2), n}):
      for sd in (0, 1, seed + 7):
        for rounds in ([0, 1, 2], [3, 1, 1, 0], [5, 2]):
          yield dict(n=n, cohort=cohort, seed=sd, rounds=rounds)


def check_shuffled(inp):
  n, cohort, start, k = inp['n'], inp['cohort'], inp['start'], inp['k']
  fd = mkfd(n)
  a = cs.UniformShuffledClientSampler(fd.shuffled_clients(buffer_size=4, seed=inp['seed']), cohort)
  base = [triple(a.sample()) for _ in range(start + k)]
  b = cs.UniformShuffledClientSampler(fd.shuffled_clients(buffer_size=4, seed=inp['seed']), cohort,
                                      start_round_num=start)
  for j in range(k):
    if triple(b.sample()) != base[start + j]:
      return f'sampler started at {start}: round {start + j} differs from the sampler started at 0'


def sweep_shuffled(tier, seed):
  # cohort size not dividing the number of clients: rounds straddle the end of a pass of the repeating stream
  for sd in (seed, seed + 1):
    for start in (1, 2, 4, 5):
      yield dict(n=5, cohort=3, start=start, k=3, seed=sd)
  for n in (1, 3, 6):
    for cohort in (1, 2, n):
      for start in (0, 1, 3):
        yield dict(n=n, cohort=cohort, start=start, k=3, seed=seed)


def child(inp):
  fd = mkfd(inp['n'])
  out = []
  for r in inp['rounds']:
    s = cs.UniformGetClientSampler(fd, inp['cohort'], inp['seed'], start_round_num=r)
    out.append(triple(s.sample()))
  a = cs.UniformShuffledClientSampler(fd.shuffled_clients(buffer_size=4, seed=inp['seed']), inp['cohort'])
  out.append([triple(a.sample()) for _ in range(2)])
  return repr(out)


def check_restart(inp):
  """A restart is a new process: str / bytes hashing is salted per process (PYTHONHASHSEED)."""
  import json
  import os
  import subprocess
  got = {}
  for hs in inp['hashseeds']:
    env = dict(os.environ, PYTHONHASHSEED=str(hs))
    pr = subprocess.run([sys.executable, os.path.abspath(__file__), '--child', json.dumps(inp)],
                        capture_output=True, text=True, env=env, cwd='/', timeout=110)
    lines = [l for l in pr.stdout.splitlines() if l.startswith('CHILD ')]
    if pr.returncode != 0 or not lines:
      return f'the sampler raised in a fresh process (PYTHONHASHSEED={hs}): {pr.stderr[-600:]}'
    got[hs] = lines[-1]
  first = inp['hashseeds'][0]
  for hs in inp['hashseeds'][1:]:
    if got[hs] != got[first]:
      return (f'the same sampler (seed {inp["seed"]}, rounds {inp["rounds"]}) restarted in a new process returns different '
              f'clients: PYTHONHASHSEED={first}: {got[first][:200]} ... vs PYTHONHASHSEED={hs}: {got[hs][:200]}')


def sweep_restart(tier, seed):
  yield dict(n=8, cohort=3, seed=seed + 1, rounds=[0, 1, 4], hashseeds=[1, 2, 3])
  if tier != 'quick':
    yield dict(n=5, cohort=5, seed=seed, rounds=[2], hashseeds=[0, 11, 12, 13])


CHECKERS = {'get': (check_get, sweep_get), 'shuffled': (check_shuffled, sweep_shuffled),
            'restart': (check_restart, sweep_restart)}

if __name__ == '__main__':
  if len(sys.argv) > 2 and sys.argv[1] == '--child':
    import json
    print('CHILD ' + child(json.loads(sys.argv[2])))
    sys.exit(0)
  sys.exit(common.main(CHECKERS))
