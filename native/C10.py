"""Native replay / bounded driver for C10: purity of a round on the real algorithms."""
import copy
import pickle
import sys

import numpy as np

from native import common
import fedjax
import jax
import jax.numpy as jnp
from fedjax.algorithms import agnostic_fed_avg, apfl, fed_avg, fed_prox, hyp_cluster, mime, mime_lite
from fedjax.aggregators import compression
from fedjax.core import client_datasets as cds
from fedjax.core import models, optimizers


def pel(params, batch, rng):
  return (batch['x'] @ params['w'] + params['b'] - batch['y']) ** 2


def pel_nested(params, batch, rng):
  return (batch['x'] @ params['lin']['w'] + params['lin']['b'] - batch['y']) ** 2


def snapshot(x):
  """Deep value snapshot of a pytree-ish python structure."""
  if isinstance(x, dict):
    return ('dict', sorted((repr(k), snapshot(v)) for k, v in x.items()))
  if isinstance(x, (list, tuple)):
    return (type(x).__name__, [snapshot(v) for v in x])
  if hasattr(x, '__dataclass_fields__'):
    return ('dc', type(x).__name__, [(f, snapshot(getattr(x, f))) for f in x.__dataclass_fields__])
  if hasattr(x, '__next__'):
    return ('one-shot-iterator', type(x).__name__)
  try:
    a = np.asarray(x)
    return ('arr', a.shape, str(a.dtype), a.tobytes())
  except Exception:
    return ('obj', repr(x))


def make_clients(seed, sizes):
  rng = np.random.RandomState(seed)
  out = []
  for i, n in enumerate(sizes):
    d = cds.ClientDataset({'x': rng.randn(n, 2).astype(np.float32), 'y': rng.randn(n).astype(np.float32),
                           'domain_id': rng.randint(0, 2, size=n).astype(np.int32)})
    out.append((f'c{i}'.encode(), d, jax.random.PRNGKey(i + 7)))
  return out


def algorithms():
  grad_fn = models.grad(pel)
  sgd = optimizers.sgd(0.1)
  mom = optimizers.sgd(0.1, momentum=0.5)
  # seed 0: a seed like any other (and the one a falsy test would lose)
  hp = cds.ShuffleRepeatBatchHParams(batch_size=2, seed=0)
  php = cds.PaddedBatchHParams(batch_size=4)
  return {
      'fed_avg': lambda: fed_avg.federated_averaging(grad_fn, sgd, mom, hp),
      'fed_prox': lambda: fed_prox.fed_prox(pel, sgd, mom, hp, 0.1),
      'mime': lambda: mime.mime(pel, mom, hp, php, 1.0),
      'mime_lite': lambda: mime_lite.mime_lite(pel, mom, hp, php, 1.0, client_delta_clip_norm=0.5),
      # (init_domain_window is passed explicitly: its default jnp.ones_like(<list>) raises in this jax)
      'agnostic': lambda: agnostic_fed_avg.agnostic_federated_averaging(
          pel, sgd, mom, hp, php, [0.5, 0.5], 0.1, domain_window_size=2, init_domain_window=[1., 1.]),
      'apfl': lambda: apfl.adaptive_personalized_federated_learning(grad_fn, sgd, mom, hp, 0.5),
      'hyp_cluster': lambda: hyp_cluster.hyp_cluster(pel, sgd, mom, php, hp),
      # a wrapped server optimizer and plain nested dict params (haiku-style {module: {name: array}})
      'fed_avg_ignore': lambda: fed_avg.federated_averaging(
          models.grad(pel_nested), sgd, optimizers.ignore_grads_haiku(mom, [('lin', 'b')]), hp),
  }


def check_pure(inp):
  name, rounds = inp['alg'], inp['rounds']
  alg = algorithms()[name]()
  params = {'w': jnp.asarray(np.array([0.3, -0.2], np.float32)), 'b': jnp.asarray(np.float32(0.1))}
  if name == 'fed_avg_ignore':
    state = alg.init({'lin': {'w': params['w'], 'b': params['b']}})
  elif name == 'hyp_cluster':
    state = alg.init([params, jax.tree_util.tree_map(lambda x: x + 1.0, params)])
  else:
    state = alg.init(params)
  history = []
  for r, sizes in enumerate(rounds):
    clients = make_clients(r, sizes)
    before = snapshot(state)
    if 'one-shot-iterator' in repr(before):
      return (f'{name}: the state entering round {r + 1} holds a single-use iterator (map / generator / zip object): reading '
              'the state consumes it, so the round is not a function of the state value')
    saved = pickle.loads(pickle.dumps(jax.tree_util.tree_map(np.asarray, state))) if name != 'apfl' else None
    new1, d1 = alg.apply(state, clients)
    if snapshot(state) != before:
      return f'{name}: round {r + 1} changed the value of the INPUT server state'
    new2, d2 = alg.apply(state, clients)
    if snapshot(new1) != snapshot(new2):
      return f'{name}: calling the round twice with the same arguments gave different new states (round {r + 1})'
    if snapshot(d1) != snapshot(d2):
      return f'{name}: diagnostics differ between two identical calls'
    for old_snap, old_state in history:
      if snapshot(old_state) != old_snap:
        return f'{name}: an earlier state changed its value after later rounds'
    history.append((before, state))
    state = new1
  return None


def sweep_pure(tier, seed):
  for name in ('fed_avg', 'fed_prox', 'mime', 'mime_lite', 'agnostic', 'apfl', 'hyp_cluster', 'fed_avg_ignore'):
    yield dict(alg=name, rounds=[[3, 2], [2, 0, 4], [3, 2]])
  for a in ('uniform', 'arithmetic', 'rotated', 'drive', 'terngrad'):
    yield dict(alg='agg:' + a, rounds=4)


def check_agg(inp):
  which = inp['alg'][4:]
  key = jax.random.PRNGKey(3)
  agg = {'uniform': lambda: compression.uniform_stochastic_quantizer(4, key),
         'arithmetic': lambda: compression.uniform_stochastic_quantizer(4, key, encode_algorithm='arithmetic'),
         'rotated': lambda: compression.rotated_uniform_stochastic_quantizer(4, key),
         'drive': lambda: compression.structured_drive_quantizer(key),
         'terngrad': lambda: compression.terngrad_quantizer(key)}[which]()
  st = agg.init()
  rng = np.random.RandomState(0)
  cl = [(b'a', {'w': jnp.asarray(rng.randn(8).astype(np.float32))}, 1.0),
        (b'b', {'w': jnp.asarray(rng.randn(8).astype(np.float32))}, 2.0)]
  keys = [np.asarray(st.rng).tobytes()]
  for r in range(inp['rounds']):
    before = snapshot(st)
    if which == 'arithmetic':
      # different updates every round, so that the per-round bit counts differ
      cl = [(cid, {'w': jnp.asarray(rng.randn(8 + r).astype(np.float32))}, w) for cid, _, w in cl]
    out1, n1 = agg.apply(iter(cl), st)
    out2, n2 = agg.apply(iter(cl), st)
    if snapshot(st) != before:
      return f'{which}: the input aggregator state changed'
    if snapshot((out1, n1)) != snapshot((out2, n2)):
      return f'{which}: the same (clients, state) gave different results'
    st = n1
    keys.append(np.asarray(st.rng).tobytes())
  if len(set(keys)) != len(keys):
    return f'{which}: the aggregator state carries a repeated PRNG key over {len(keys)} states'


def check(inp):
  if inp['alg'].startswith('agg:'):
    return check_agg(inp)
  return check_pure(inp)


CHECKERS = {'pure': (check, sweep_pure)}

if __name__ == '__main__':
  sys.exit(common.main(CHECKERS))
