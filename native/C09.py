"""Native replay / bounded driver for C09: crash injection on the real
checkpoint / experiment code."""
import itertools
import os
import pickle
import sys
import tempfile

import numpy as np

from native import common

import fedjax  # the experiment loop needs most of the package
from fedjax.core import serialization
from fedjax.training import checkpoint
from fedjax.training import federated_experiment as fe
from fedjax.training import logging as fj_logging

tf = serialization.tf
fj_logging.Logger.log = lambda self, *a, **k: None  # TensorBoard is not installed here


class Crash(Exception):
  pass


def names(root):
  return sorted(os.listdir(root))


def loadable_invariant(root):
  """Every file visible under a checkpoint name must unpickle."""
  base = os.path.join(root, 'checkpoint_')
  for p in checkpoint._get_checkpoint_paths(base):
    try:
      serialization.load_state(p)
    except Exception as e:  # pylint: disable=broad-except
      return f'{os.path.basename(p)} is visible under its final name but not loadable: {type(e).__name__}'
  return None


def check_paths(inp):
  with tempfile.TemporaryDirectory() as root:
    present = inp['rounds']
    junk = ['checkpoint_1', 'checkpoint_000000010', 'checkpoint_0000001a', 'checkpoint_00000005.tmp',
            'checkpoint_00000007.partial', 'checkpoint_', 'other_00000003']
    for r in present:
      serialization.save_state({'r': r}, os.path.join(root, f'checkpoint_{r:08d}'))
    for j in junk:
      with open(os.path.join(root, j), 'wb') as f:
        f.write(b'junk')
    base = os.path.join(root, 'checkpoint_')
    got = [os.path.basename(p) for p in checkpoint._get_checkpoint_paths(base)]
    want = [f'checkpoint_{r:08d}' for r in sorted(present)]
    if got != want:
      return f'_get_checkpoint_paths = {got}, expected {want}'
    latest = checkpoint.load_latest_checkpoint(root)
    if not present:
      if latest is not None:
        return 'load_latest_checkpoint on an empty directory is not None'
    elif latest is None or latest[1] != max(present) or latest[0] != {'r': max(present)}:
      return f'load_latest_checkpoint = {latest}, expected round {max(present)}'


def sweep_paths(tier, seed):
  for rounds in ([], [0], [3], [9, 10], [2, 10, 9, 100], [99999999, 1], [5, 50, 500, 5000]):
    yield dict(rounds=rounds)


def check_keep(inp):
  with tempfile.TemporaryDirectory() as root:
    have = set()
    content = {}
    for i, (r, keep) in enumerate(inp['saves']):
      checkpoint.save_checkpoint(root, {'r': r, 'save_no': i}, r, keep)
      content[r] = i
      have.add(r)
      want = sorted(have)[-keep:]
      have = set(want)
      got = [int(n[len('checkpoint_'):]) for n in names(root)
             if n.startswith('checkpoint_') and n[len('checkpoint_'):].isdigit()
             and len(n) == len('checkpoint_') + 8]
      if got != want:
        return (f'after save_checkpoint(round={r}, keep={keep}) (saves so far {inp["saves"][:i + 1]}) retained {got}, '
                f'expected {want}')
      latest = checkpoint.load_latest_checkpoint(root)
      if latest is None or latest[1] != want[-1] or int(latest[0]['r']) != want[-1] or \
          int(latest[0]['save_no']) != content[want[-1]]:
        return (f'after saves {inp["saves"][:i + 1]} load_latest_checkpoint returns {latest}; expected round {want[-1]} with the '
                f'state of save number {content[want[-1]]} (a checkpointed state loads back equal to the saved one)')
      msg = loadable_invariant(root)
      if msg:
        return msg


def sweep_keep(tier, seed):
  yield dict(saves=[[1, 1], [2, 1], [3, 1]])
  yield dict(saves=[[1, 2], [2, 2], [3, 2], [4, 2]])
  yield dict(saves=[[9, 3], [10, 3], [11, 3], [100, 3], [101, 2], [102, 1]])
  yield dict(saves=[[5, 1], [3, 1]])
  yield dict(saves=[[1, 5], [2, 5], [3, 1]])
  # the same round saved again (re-run of an interrupted round; default round_num=0): overwritten, retained, loadable
  yield dict(saves=[[0, 1], [0, 1]])
  yield dict(saves=[[2, 2], [2, 2], [3, 2], [3, 2]])
  yield dict(saves=[[1, 3], [2, 3], [1, 3], [2, 1]])


def check_crash(inp):
  """Torn write of a checkpoint at every prefix length: the final name must
  never be visible with partial content."""
  cut = inp['cut']
  if cut < 0:
    # a kill right after the rename: what is ON DISK under the temporary name at that moment is what the final name shows
    with tempfile.TemporaryDirectory() as root:
      state = {'w': np.arange(5000) + 3}
      seen = {}
      real_rename = tf.io.gfile.rename

      def checked_rename(src, dst, overwrite=False):
        with open(src, 'rb') as f:
          data = f.read()
        try:
          ok = bool(np.array_equal(pickle.loads(data)['w'], state['w']))
        except Exception as e:  # pylint: disable=broad-except
          ok = False
        seen.setdefault('complete', []).append((len(data), ok))
        return real_rename(src, dst, overwrite=overwrite)
      tf.io.gfile.rename = checked_rename
      try:
        checkpoint.save_checkpoint(root, state, 3, 1)
      finally:
        tf.io.gfile.rename = real_rename
      bad = [x for x in seen.get('complete', []) if not x[1]]
      if not seen.get('complete'):
        return 'save_checkpoint did not publish the checkpoint with a rename'
      if bad:
        return (f'the checkpoint is renamed to its final name while only {bad[0][0]} bytes of it are on disk (file not yet '
                'flushed / closed): a kill at that point leaves a truncated checkpoint that every restart loads')
    return None
  with tempfile.TemporaryDirectory() as root:
    checkpoint.save_checkpoint(root, {'w': np.arange(50)}, 1, 1)
    state = {'w': np.arange(200) + 7}
    blob = pickle.dumps(state)
    real_dump = pickle.dump

    def torn_dump(obj, f, *a, **k):
      f.write(blob[:min(cut, len(blob))])
      f.flush()
      raise Crash('crash in the middle of writing a checkpoint')
    serialization.pickle.dump = torn_dump
    try:
      try:
        checkpoint.save_checkpoint(root, state, 2, 1)
      except Crash:
        pass
    finally:
      serialization.pickle.dump = real_dump
    msg = loadable_invariant(root)
    if msg:
      return f'after a crash {cut} bytes into the write: {msg}'
    latest = checkpoint.load_latest_checkpoint(root)
    if latest is None or latest[1] != 1:
      return f'after a torn write of round 2 the latest loadable checkpoint should be round 1, got {latest}'


def check_state_types(inp):
  """save_state / load_state and save_checkpoint / load_latest_checkpoint return the state with the SAME leaf types, dtypes and
  values (float64, int64, Python ints beyond 32 bits, Python floats): a resumed run continues from exactly the saved state."""
  state = {'acc': np.arange(3, dtype=np.float64) / 7, 'cnt': np.int64(2 ** 40 + 5), 'k': 2 ** 40 + 9, 'f': 0.1,
           'w': np.ones(2, np.float32), 'flag': True, 'name': 'x'}
  with tempfile.TemporaryDirectory() as root:
    path = os.path.join(root, 'state')
    serialization.save_state(state, path)
    back = serialization.load_state(path)
    checkpoint.save_checkpoint(root, state, 3, 1)
    latest = checkpoint.load_latest_checkpoint(root)
  for label, got in (('load_state', back), ('load_latest_checkpoint', latest[0] if latest else None)):
    if got is None or set(got) != set(state):
      return f'{label}: keys changed'
    for k, v in state.items():
      g = got[k]
      if type(g) is not type(v):
        return f'{label}: leaf {k!r} comes back as {type(g).__name__}, saved as {type(v).__name__}'
      if isinstance(v, np.ndarray):
        if g.dtype != v.dtype or not np.array_equal(g, v):
          return f'{label}: array leaf {k!r} changed ({v.dtype} -> {g.dtype})'
      elif g != v:
        return f'{label}: leaf {k!r} changed from {v!r} to {g!r}'


def sweep_crash(tier, seed):
  for cut in (-1, 0, 1, 10, 100, 10 ** 6):
    yield dict(cut=cut)


# ---- whole experiment ------------------------------------------------------
class Stamp(fe.EvaluationFn):
  def __call__(self, state, round_num):
    return {'round': round_num, 'value': float(np.sum(state['w']))}


def make_setup():
  from fedjax.core import client_samplers, in_memory_federated_data as imfd
  from fedjax.core import federated_algorithm
  fd = imfd.InMemoryFederatedData({f'c{i}'.encode(): {'x': np.arange(i + 2, dtype=np.float32)}
                                   for i in range(6)})
  calls = {'n': 0, 'crash_at': None}

  def init():
    return {'w': np.zeros(3)}

  def apply(state, clients):
    calls['n'] += 1
    if calls['crash_at'] is not None and calls['n'] == calls['crash_at']:
      raise Crash('crash inside algorithm.apply')
    tot = 0.0
    for cid, ds, rng in clients:
      tot += float(ds.raw_examples['x'].sum()) + float(np.asarray(rng).sum() % 97)
    return {'w': state['w'] * 0.5 + tot}, {}
  alg = federated_algorithm.FederatedAlgorithm(init, apply)
  return fd, alg, calls, client_samplers


def run_once(root, fd, alg, cs, cfgargs):
  sampler = cs.UniformGetClientSampler(fd, 3, seed=5)
  cfg = fe.FederatedExperimentConfig(root_dir=root, **cfgargs)
  return fe.run_federated_experiment(alg, alg.init(), sampler, cfg,
                                     final_eval_fn_map={'final': Stamp()})


def check_resume(inp):
  fd, alg, calls, cs = make_setup()
  cfgargs = dict(num_rounds=inp['num_rounds'], checkpoint_frequency=inp['ckpt_freq'],
                 num_checkpoints_to_keep=inp['keep'], eval_frequency=0)
  with tempfile.TemporaryDirectory() as ref_root, tempfile.TemporaryDirectory() as root:
    ref = run_once(ref_root, fd, alg, cs, cfgargs)
    ref_tsv = open(os.path.join(ref_root, 'final.tsv')).read()
    real_remove = tf.io.gfile.remove
    real_dump = serialization.pickle.dump
    for kind, arg in inp['crashes']:
      calls['n'] = 0
      calls['crash_at'] = None
      try:
        if kind == 'apply':
          calls['crash_at'] = arg
        elif kind == 'remove':
          def bad_remove(path, _c=[0]):
            _c[0] += 1
            if _c[0] == arg:
              raise Crash('crash before an old checkpoint is deleted')
            return real_remove(path)
          tf.io.gfile.remove = bad_remove
        elif kind == 'write':
          def torn(obj, f, *a, _c=[0], **k):
            _c[0] += 1
            if _c[0] == arg:
              f.write(pickle.dumps(obj)[:17])
              f.flush()
              raise Crash('crash in the middle of a checkpoint write')
            return real_dump(obj, f, *a, **k)
          serialization.pickle.dump = torn
        elif kind == 'tsv':
          # crash in the middle of writing the final-evaluation output (after `arg` - 1 complete write() calls)
          real_gfile = tf.io.gfile.GFile

          class TornFile:
            def __init__(self, path, mode='r'):
              self.f, self.torn, self.n = real_gfile(path, mode), path.endswith('.tsv') and 'w' in mode, 0

            def __enter__(self):
              self.f.__enter__()
              return self

            def __exit__(self, *a):
              return self.f.__exit__(*a)

            def write(self, data):
              self.n += 1
              if self.torn and self.n == arg:
                self.f.flush()
                raise Crash('crash while the final evaluation output is being written')
              return self.f.write(data)

            def __getattr__(self, name):
              return getattr(self.f, name)
          tf.io.gfile.GFile = TornFile
        elif kind == 'final':
          orig = Stamp.__call__

          def boom(self, state, round_num, _c=[0]):
            _c[0] += 1
            if _c[0] == 1:
              raise Crash('crash during final evaluation')
            return orig(self, state, round_num)
          Stamp.__call__ = boom
        try:
          run_once(root, fd, alg, cs, cfgargs)
        except Crash:
          pass
        finally:
          if kind == 'final':
            Stamp.__call__ = orig
      finally:
        tf.io.gfile.remove = real_remove
        serialization.pickle.dump = real_dump
        if kind == 'tsv':
          tf.io.gfile.GFile = real_gfile
        calls['crash_at'] = None
      msg = loadable_invariant(root)
      if msg:
        return f'after crash {kind}@{arg}: {msg}'
    calls['crash_at'] = None
    try:
      got = run_once(root, fd, alg, cs, cfgargs)
    except Exception as e:  # pylint: disable=broad-except
      return f'the re-run after crashes {inp["crashes"]} did not complete: {type(e).__name__}: {e}'
    if not np.allclose(got['w'], ref['w']):
      return f'final state after crashes {inp["crashes"]} differs: {got["w"]} vs {ref["w"]}'
    tsv = open(os.path.join(root, 'final.tsv')).read()
    if tsv != ref_tsv:
      return f'final evaluation output after crashes {inp["crashes"]} differs: {tsv!r} vs {ref_tsv!r}'
    # running a finished experiment again must also complete with the same outputs
    try:
      again = run_once(root, fd, alg, cs, cfgargs)
    except Exception as e:  # pylint: disable=broad-except
      return f're-running a finished experiment raised {type(e).__name__}: {e}'
    if cfgargs['checkpoint_frequency'] and inp['num_rounds'] % cfgargs['checkpoint_frequency'] == 0:
      if not np.allclose(again['w'], ref['w']) or open(os.path.join(root, 'final.tsv')).read() != ref_tsv:
        return 're-running a finished experiment changed its outputs'
    kept = [n for n in names(root) if n.startswith('checkpoint_') and n[11:].isdigit() and len(n) == 19]
    if cfgargs['checkpoint_frequency'] and len(kept) > cfgargs['num_checkpoints_to_keep']:
      return f'more than {cfgargs["num_checkpoints_to_keep"]} checkpoints retained: {kept}'


def sweep_resume(tier, seed):
  for n, cf, keep in ((4, 1, 1), (5, 2, 2), (6, 3, 1)):
    yield dict(num_rounds=n, ckpt_freq=cf, keep=keep, crashes=[])
    for a in range(1, n + 1):
      yield dict(num_rounds=n, ckpt_freq=cf, keep=keep, crashes=[['apply', a]])
    yield dict(num_rounds=n, ckpt_freq=cf, keep=keep, crashes=[['write', 1]])
    yield dict(num_rounds=n, ckpt_freq=cf, keep=keep, crashes=[['write', 2], ['apply', 1]])
    yield dict(num_rounds=n, ckpt_freq=cf, keep=keep, crashes=[['remove', 1]])
    yield dict(num_rounds=n, ckpt_freq=cf, keep=keep, crashes=[['final', 1]])
    yield dict(num_rounds=n, ckpt_freq=cf, keep=keep, crashes=[['tsv', 1]])
    yield dict(num_rounds=n, ckpt_freq=cf, keep=keep, crashes=[['tsv', 2]])
    yield dict(num_rounds=n, ckpt_freq=cf, keep=keep, crashes=[['apply', 2], ['apply', 1], ['final', 1]])


CHECKERS = {'types': (check_state_types, lambda t, s: [dict()]), 'paths': (check_paths, sweep_paths), 'keep': (check_keep, sweep_keep),
            'crash': (check_crash, sweep_crash), 'resume': (check_resume, sweep_resume)}

if __name__ == '__main__':
  sys.exit(common.main(CHECKERS))
