SOURCE_COMMITS = ['2a82dd5', '23b3277', 'd11a4bc', '0ff938d', 'f5c3f96', '4d27d01', '24cde5a', 'eabce87', '6660817', '6b4eb47', '2cb23c1', '3b6902e', '3a1ed2d', '294bb7e', 'fce13cd', '0d26e09', '9e23548', 'a66a92b']
NOTES = ('Exit codes of ./check: 0 all obligations discharged; 1 violation (VIOLATION line); '
         '2 undecided (solver unknown / extraction failure / contract binding lost); 3 checker crash. '
         'See DESIGN.md.')
NOT_APPLICABLE = {}
CLAIMED = {
 'C03': dict(
   text='Unbounded proof (all N, batch sizes, bucket counts, all iterations) that the real BatchView/PaddedBatchView '
        'loops, _pick_final_batch_size and the dict-level helpers (slice_examples, num_examples, attach_mask, pad_examples) '
        'meet contracts whose top-level postconditions are the property statement: exact order-preserving partition, full '
        'batches except the last, prefix mask, zero padding with unchanged dtype/shape, minimal bucketed final size. Added since: entry.override / entry.override.none on the public entry points (hparams object + keyword overrides, falsy and None values included) and view.stateless:<class> (no view method keeps state on the view or mutates what it did not create).',
   note='Trusted: numpy slicing/zeros/arange contracts, TABLE abstraction of Examples, per-example preprocessor hypothesis, '
        'pyvc VC generator and its Python-subset semantics; induction schema for the halving lemma.'),
 'C04': dict(
   text='Unbounded proof that ShuffleRepeatBatchView.__init__ computes the documented step count (ceil/floor/min/None, stated '
        'without division) and that the real refill loop of __iter__ emits exactly num_steps batches of exactly batch_size rows '
        'whose index stream is (completed windows, each a permutation of 0..N-1 and each freshly shuffled) ++ (a prefix of the '
        'current buffer); skip_shuffle gives the cyclic order; the generator state is created per iteration from the seed; '
        'the public entry point ClientDataset.shuffle_repeat_batch hands the view hparams with every keyword override applied '
        '(None-valued and falsy ones included).',
   note='Trusted: RandomState(seed) deterministic, shuffle returns a permutation (uninterpreted SHUF), numpy arange/zeros/slice '
        'contracts, abstract IsPerm/InRange predicates with stated axioms; the two corollaries (coverage after ceil(N/B) batches, '
        'usage counts differ by <= 1) are consequences of the window obligation, not separate obligations.'),
 'C15': dict(
   text='Unbounded proof for padded_batch_client_datasets (both loops, all client-size mixes incl. empty clients: emitted real '
        'rows = concatenation of the datasets in order, all batches but the last full, bucketed final size, ValueError exactly '
        'for a differing preprocessor object / feature set) and for RepeatableIterator (class invariant: first pass copies, later '
        'passes replay exactly the buffer; builtin containers never mutated). buffered_shuffle: output is a permutation of the '
        'input (ghost witness of an arbitrary item, quantified buffer invariants, unbounded). shuffle_repeat_batch_federated_data: '
        'seed and argument plumbing for every integer seed. buffered_shuffle_batch_client_datasets: bounded native stand-in only. Added since: pbfd.args (padded_batch_federated_data forwards the hparams object and every keyword), srbfd.seed / srbfd.examples.args, subset order on feature sets.',
   note='Trusted: TABLE contracts of the helpers (proved in C03), FLAT ghost concatenation axioms, per-example preprocessor '
        'hypothesis, parametricity of buffered_shuffle in its items, RandomState.shuffle permutes. Bounded (not proved): two-level '
        'shuffle composition. Not covered: non-trivial order.'),
 'C08': dict(
   text='Unbounded proof, over ids in an arbitrary total order, that intersect_slice_ranges is the meet of two half-open ranges '
        '(all 16 None patterns); that the SQL WHERE literal (parsed) and the explicit range tests of SQLite point lookups denote '
        'the same predicate, with KeyError exactly outside the view; that Subset/InMemory slicing keeps exactly the ids in range and '
        'never raises (empty views included), get_clients answers in request order, preprocess_* append to exactly one chain and '
        'leave the parent view unchanged; that both preprocessor chains apply functions in registration order to a copy.',
   note='Trusted: sqlite3 point lookups / BLOB ordering, interface contract of the wrapped base of SubsetFederatedData, purity of user '
        'functions. Known finding D-08b (SQLite client_size vs row-count-changing client preprocessors) is reported as KNOWN-FINDING '
        'and proved absent outside its region. shuffled_clients relies on buffered_shuffle (bounded only, C15).'),
 'C13': dict(
   text='Unbounded proof that UniformGetClientSampler.sample returns, at round r, exactly choice(RandomState(lehmer(seed, r)), '
        'all ids, n) with the datasets of those ids and keys split(PRNGKey(r), n)[i] — terms over (seed, r) only — advances only the '
        'round counter (no cached generator, id list never mutated, no global numpy RNG), that set_round_num seats it, and that the '
        'streaming sampler keeps position = round * cohort so a sampler started at r replays rounds r, r+1, ... of one started at 0; '
        'the id list is the enumeration order of the dataset (set() of a symbolic sequence is modelled as an arbitrary, hash-seed dependent order). Added since: stream.sources:<class> (each shuffled_clients builds exactly one RandomState(seed) from its unmodified seed parameter; no global RNG).',
   note='Trusted: numpy RandomState/choice and jax PRNGKey/split are deterministic (uninterpreted); choice(replace=False) distinct; '
        'primality of 2^31-1 for the seed-range remark. Restart in a fresh process (different PYTHONHASHSEED): bounded native check. '
        'Not covered: pairwise distinct keys differing between rounds (PRNG property).'),
 'C09': dict(
   text='Proof over a ghost file-system model of the checkpoint directory: a crash invariant (no name matching checkpoint_[0-9]{8} is '
        'ever visible with partial content) is obliged after EVERY file-system effect of the real save_state / save_checkpoint; the '
        'regex of the real pattern is proved equivalent to "exactly 8 digits" for all strings (z3 regex theory); numeric sort key, '
        'newest-wins load, "exactly the keep largest remain, new file first" are postconditions; run_federated_experiment is proved, '
        'from ANY crash-consistent directory and for all configurations, to return S(num_rounds) of the uninterrupted run and to call '
        'every final evaluation once with (S(num_rounds), num_rounds) — every local bound on every path. Added since: the C13 sampler contracts (terms over (seed, round) and the enumeration order of the dataset) and the cross-process restart check are obligations of C09; run.final.once; torn final-evaluation output natively.',
   note='Trusted: each gfile/os primitive is one atomic effect, rename atomic, pickle round trip, sorted() contract; the premise '
        '(round-deterministic algorithm, round-indexed sampler) is modelled by uninterpreted APPLY/SAMPLE (checked for the built-ins in '
        'C10/C13); root_dir without regex metacharacters. Native crash-injection driver replays refutations.'),
 'C19': dict(
   text='Proof over a ghost cache directory with per-call fault flags: after every effect of the real maybe_download / '
        'maybe_lzma_decompress (open, each block write, rename, copy) and on every exceptional exit, a non-.partial path exists only '
        'with the complete payload; the block loop invariant written = min(k*block, len) gives completeness at the rename for every '
        'payload length; a complete cached file is reused without any network call; from every crash-reachable cache state (a stale '
        '.partial of any length included) a call that meets no new I/O error returns the complete file (dl.repair / xz.repair; '
        'exclusive-create open and os.remove are modelled); validate_file returns iff size and sha256 match; '
        'cifar100.load_split (download -> validate -> decompress -> convert): the converted file is absent or complete under its final '
        'name at every crash point, both validations happen on the right path with the pinned constants before the file is used, a '
        'complete file is reused.',
   note='Trusted: open("wb") truncates, write appends or raises, os.rename atomic, raw.read(b) returns min(b, remaining) or raises, '
        'content-length equals the payload size, copyfileobj copies all or raises. Not covered: concurrent callers; '
        'cifar100.load_split building its SQLite file in place.'),
 'C16': dict(
   text='Proof against a NumPy/msgpack data model (library contracts as axioms): the real _ndarray_to_bytes/_ndarray_from_bytes and the '
        'ext pack/unpack dispatch restore shape, dtype (byte order included) and values of every supported array, jax array and numpy '
        'scalar for every layout; complex scalars and bytes-object arrays round-trip; object arrays are accepted only if every element '
        'is bytes; structured dtypes never come back as themselves; the four ext codes are distinct and paired. Checkpoint clause: '
        'save_state / load_state round trip, path listing, newest-wins and save_checkpoint (the file just written is retained with the '
        'saved state whenever its round is >= all existing ones, the same round saved again included) under their C09 contracts over '
        'the FS model. A bounded native sweep '
        '(594 cases: all dtypes x shapes x layouts x byte orders, rejects, nested trees, SQLite builder) cross-checks the axioms. Added since: frame obligations of serialization.py and native call sequences of msgpack_deserialize (a failed call must not affect the next).',
   note='Trusted: NumPy dtype/tobytes/frombuffer contracts, msgpack/zlib/pickle/sqlite3 round trips. Bounded only: nested-structure '
        'recursion of msgpack, SQLite builder round trip.'),
 'C07': dict(
   text='Unbounded proof (any number of trees, any non-negative weights, at an arbitrary leaf coordinate) that the real tree_mean / '
        'tree_sum loops compute sum(w_i p_i)/sum(w_i) with the zero guard, stay inside the [min,max] hull, consume a one-pass iterator '
        'exactly once, never donate or alias a caller buffer (ownership tracked through jax.jit(donate_argnums)), that '
        'tree_clip_by_global_norm is s*t with 0<=s<=1, norm <= bound, identity below the bound; plus an IEEE float32 obligation '
        '(z3 FP theory) for the zero-norm corner. Added since: OWN frame obligations of tree_util.py / aggregator.py (no in-place operator on an object reachable from an argument - weights included -, no state across calls).',
   note='Trusted: R arithmetic for arrays, tree_map leafwise, jit = identity + donation, norm homogeneity, tree_l2_squared is the '
        'squared norm; order independence is commutativity of + (not a separate obligation). Not covered: rounding error size.'),
 'C05': dict(
   text='Proof, from the real MeanStat/SumStat bodies, of the monoid laws on the metric domain (sanitisation, closure, commutativity, '
        'associativity, two-sided identity, result = weighted mean or 0), of reduce being additive over rows for in-domain rows '
        '(inductive lemma), of evaluate_batch = reduce over rows of (mask ? single-example stat : zero) whatever padded rows contain, '
        'of _evaluate_model_step (own mask or all-True default, merge with the previous stat) and evaluate_model = fold from zero(); '
        'zero() of each built-in metric is the identity of the Stat type its evaluate_example returns; safe_div NaN-freedom in IEEE float32; '
        'bool-typed weights are promoted by new() (DTYPE tracking). Added since: metric.static.identity; ModelEvaluator (both entry points) and mixed padded sizes natively.',
   note='Trusted: vmap pointwise, tree_map over Stat fields, SUMROWS additivity and sum of zeros, R arithmetic. '
        'PerDomainMetric/ConfusionMatrix zeros and user metrics: bounded native check only (on violation/replay).'),
 'C06': dict(
   text='Proof in a rows model (a vector over the batch rows is its entry at an arbitrary row; reductions are an uninterpreted SUMROWS of the '
        'pointwise expression) that the real scalar_loss is (sum of real-row losses)/(number of real rows) + regularizer exactly once, '
        'never mentions padded rows, gives 0 + regularizer on a fully padded batch; that grad() returns jit(grad(scalar_loss)); that the '
        'average-loss step/finalise/loop accumulate real rows only and finalise once; that the Mime gradient accumulator adds '
        'n_b * g_b and n_b with the documented key plumbing; that per-domain segment sums count real rows of that domain only. Added since: reg.callsite:<builder> (the regularizer option reaches every gradient / loss constructor); AverageLossEvaluator, model_grad and HypCluster assignment natively.',
   note='Trusted: jax.grad extensional/linear, split deterministic, x*mask = mask?x:0, SUMROWS abstraction, R arithmetic (float32 '
        'NaN-freedom of safe_div is a C05 obligation). Precondition from the only call site: domain metrics are built without a regularizer.'),
 'C01': dict(
   text='Proof over contracts, for any number of clients and any client sizes: the real FedAvg apply() hands every client ITS OWN '
        'shuffle_repeat_batch stream and key to for_each_client, accumulates sum(n_i*delta_i) and sum(n_i) (loop invariant), applies the '
        'server optimizer exactly once to (mean or exactly 0 when no example was seen, server opt state, server params), returns a fresh '
        'ServerState with exactly the optimizer outputs, one diagnostics entry per client, input state untouched; the client triple is '
        'optimizer(grad(params, batch, split(rng)[1]), ...) with rng <- split(rng)[0] and delta = server - client params. Added since: OWN frame obligations of fed_avg.py (no closure / module state between apply calls); keyed-loss round natively.',
   note='Trusted: for_each_client contract (C02, backend independent), optimizers/grad pure (uninterpreted), distinct client ids, '
        'R arithmetic, order independence = commutativity of +. Native driver compares whole multi-round runs with a reference.'),
 'C10': dict(
   text='Frame/ownership proof (OWN checker over the real ASTs) for every round function of the 7 algorithms and 4 compression '
        'aggregators: each of the mutation sites (subscript/attribute stores, in-place operators, mutating methods, next()) is an '
        'obligation "the mutated object was created in this call"; no nonlocal/global rebinding; no global RNG/clock/entropy; '
        'server states are frozen pytree dataclasses; every aggregator stores a key on the split[0] spine of its state key and '
        'seeds its per-client keys from a split[1] branch above it (symbolic execution of the real apply bodies); no single-use '
        'iterator (map / zip / generator object) is stored in a returned state (frame.lazy: reading a state must not change it). Added since: frame.all:<fn> (aggregated, always present), frame.lazy:<fn> (no single-use iterator stored in a returned state), hparams.passthrough (batching calls get the builder\'s hyper-parameter object unchanged).',
   note='Trusted: library calls are pure and return fresh objects except listed aliasing accessors; jax arrays immutable; '
        'value-level determinism for FedAvg/FedProx is apply.post/apply.state of C01/C12, the other algorithms rely on OWN + purity; '
        'seeded client hparams needed for determinism (seed=None draws OS entropy).'),
 'C12': dict(
   text='Relational proof over contracts: the FedProx round and client step have the same summaries as FedAvg (C01 obligations re-run on '
        'the real fed_prox bodies), its loss is per example loss + 0.5*mu*||w_server - w||^2 anchored at the round server params and equals '
        'the plain loss when mu = 0; the MimeLite client step with sgd is the FedAvg sgd step and its server step is p - lr*mean; the Mime '
        'first local step under sgd is w - eta*c (g - g + c = c); the APFL server_params component is a FedAvg step with key split(rng,3)[1] '
        'and coefficients stay in [0,1]; link obligations check every jax/jnp call of these functions against the installed library; '
        'in every builder with a regularizer option each gradient / loss constructor receives it (reg.callsite). Added since: reg.callsite:<builder> and the OWN frame obligations of the algorithm builders (no module-level or closure state across instances).',
   note='Trusted: sgd contract, optimizers/grad pure and extensional, for_each_client contract. Bounded native stand-in (not proved): '
        'whole-round equality for HypCluster(1 cluster), MimeLite, Mime. HypCluster differs from FedAvg on an all-empty cohort with a '
        'stateful server optimizer (documented precondition).'),
 'C17': dict(
   text='One-step preservation proofs from the real code: exponentiated-gradient update has the form max(w*exp,0)/S with one scalar '
        'normaliser and keeps positive entries positive; the window keeps its length and shifts (drop oldest, append newest) without '
        'touching the input list, init builds window_size entries; alpha and the scaled client loss stay finite in IEEE float32 for '
        'domains/clients without data; APFL coefficients are clipped into [0,1] after every step and the state table is only written at '
        'participating ids; HypCluster leaves clusters without examples identical (params AND optimizer state), updates each cluster '
        'from exactly its assigned clients (loop invariant over any number of clients), assignment is argmin; MimeLite aggregates the '
        'clipped delta; ignore_grads_haiku returns named entries equal to the input and the rest as the base optimizer. Added since: apfl.keys.frame (no function of apfl.py writes a client_states table it did not create: evaluation only reads).',
   note='Trusted: sum lemmas for "sums to 1", exp > 0, haiku map/dict copies, argmin first minimum; HypCluster loop bodies executed for '
        'K = 3 / K = 2 clusters (uniform in the cluster index); _cluster_losses: native driver only.'),
 'C14': dict(
   text='Per-metric proof in an index-array model: every reduction records what it reduced and the recorded per-position / per-class '
        'expression is compared pointwise with an independent definition: target weights, token accuracy with logits mask (first '
        'argmax), top-k as (order relation of the sort = documented order, ties to the lowest index) + (kept prefix = max(0, min(k, n))), '
        'OOV = target is ONE OF the values, counts / length / truncation (any vs all), cross entropy as one-hot sum, confusion matrix '
        'one count at (target, argmax), per-domain restriction, per-position variants. Added since: library contracts for float32 softmax (may be exactly 0) / log (argument > 0), isneginf / isposinf classifiers; sequence cross-entropy contracts.',
   note='Trusted: argmax first maximum, argsort stable ascending, slicing/reversal, one_hot, log_softmax, .at[].set; tuples of masked / '
        'oov values of length 0..2. Not covered: extreme magnitudes; composition of the sequence cross-entropy metrics (native driver).'),
 'C20': dict(
   text='Contracts on the packaged preprocessors: _build_look_up_table (loop invariant over an array with the LAST-index ghost), '
        'preprocess_client (point-function arrays: join loop invariant at an arbitrary snippet/position, OFF ghost with a '
        'monotonicity lemma, shift-by-one, least-multiple padding, labels in the vocabulary), model ids = dataset ids as '
        'symbolic equalities over vocab_size, CIFAR centre/random crop arithmetic and the standardisation floor against the '
        'TensorFlow definitions, EMNIST domain_id for both id formats. Added since: cifar.wrapper.args / .result (preprocess_batch_tff passes height and width in order), task.wiring:<TASK> (get_task pairs dataset and model of one package and leaves the label conventions at the defaults proved by ids.*).',
   note='Trusted: numpy zeros/full/slices/fancy indexing/reshape order, TensorFlow documented definitions, StackOverflow '
        'tokenizer ids (TF lookup ops). Row independence of the packaged networks: bounded native check only (not proved).'),
 'C18': dict(
   text='walsh_hadamard_transform: while-loop invariant in exponent form (n = 2^a, small_n = 2^b, ghost remaining exponent; '
        'blocks 0..8 as powers of two, sum of exponents = a), guard = "more than 8 blocks", then the real reshape / dict / '
        'einsum code executed for every num_dims 0..8: each einsum spec string is parsed and must contract one axis with a '
        'Hadamard matrix of that axis size, each axis once. Powers of two are an uninterpreted P2 with instances of Lean 4 + '
        'Mathlib theorems (lean/Pow2.lean, checked by lean on every run). structured_rotation composed with its inverse over '
        'an abstract vector algebra at an arbitrary coordinate (ranks 0..3): norm, inverse, shapes, dtypes; pytree versions by '
        'loop invariants at an arbitrary leaf (same per-leaf key); jit-static taint check. Added since: treedef_is_leaf library contract (bare-array pytrees) in the per-leaf key argument.',
   note='Trusted math: Kronecker factorisation of Sylvester matrices, H H = d I, Parseval; einsum/reshape/pad/take semantics; '
        'ceil(log2 s) exact for s <= 2^24; reals for float32. Bounded (native): matrix identity to 2^10 (2^14 thorough), '
        'different keys give different rotations.'),
 'C11': dict(
   text='Quantizers executed at an arbitrary coordinate with amin/amax/std/sums as symbols constrained by their definitions; '
        'the uniform draw u in [0,1) is universally quantified (grid point, one-step error, range, pass-through of constant / '
        'on-grid / zero vectors hold for EVERY u), expectations by the rule E[where(u > t, a, b)] = a(1-c) + bc; reals with an '
        'explicit NaN flag for 0/0; separate float32 (z3/cvc5 FP theory) obligations for NaN/Inf freedom; DRIVE scale; leaf '
        'loops of the *_pytree functions by invariants (leaf j uses split(rng, n)[j]); the four aggregators: aggregate is '
        'tree_mean of (quantize(params_i, i-th round key), weight_i), bit formula, key plumbing (state key on the split[0] spine); '
        'every accumulator an aggregator mutates is created inside the call (frame obligations), so the bit count of a round '
        'depends on that round only.',
   note='Trusted: LEM-UNIF, definitions of the reductions, IEEE-754 RNE for float32 (XLA CPU flushes subnormals), |values| <= 2^100 '
        "for fp.usq.finite. Known finding D-11b: range overflow gives NaN. Arithmetic-coding bit counts: bounded native check only "
        "(mean code length over the round's clients), not proved. Not covered: statistical independence (bounded native sampling)."),
 'C02': dict(
   text='Client programs are uninterpreted (INIT, STEP, FINAL); FOLD/RES are the spec. jit and debug backends and the '
        'for_each_client wrapper: nested loop invariants (state = FOLD(c, k), owned; k step results; one tuple per client in order) '
        'with the generator consumed at its yields; donation obligations (only owned copies are donated). pmap: p_client_step with '
        'a symbolic mask (unbounded), run_block at an arbitrary lane for any number of padding rounds (unbounded), run + _blockify '
        'by symbolic execution of the real code for 23 concrete block structures (bounded). Backend choice: set/context manager '
        'executed for every argument kind x previous selection x normal/exceptional exit; thread-local frame checks. Added since: backend.stateless:<class> (the function a backend returns keeps no state between calls: OWN analysis of every __call__), ctx.thread.classattrs also rejects __slots__ / attribute hooks on the threading.local subclass.',
   note='Trusted: jit/pmap compute their function lane-wise, aliasing rules, threading.local. Bounded: block structures, native '
        'backend equality for device counts 1..8, one thread interleaving.'),
}
