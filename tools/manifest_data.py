SOURCE_COMMITS = []
NOTES = ('Exit codes of ./check: 0 all obligations discharged; 1 violation (VIOLATION line); '
         '2 undecided (solver unknown / extraction failure / contract binding lost); 3 checker crash. '
         'See DESIGN.md.')
NOT_APPLICABLE = {}
CLAIMED = {
 'C03': dict(
   text='Unbounded proof (all N, batch sizes, bucket counts, all iterations) that the real BatchView/PaddedBatchView '
        'loops, _pick_final_batch_size and the dict-level helpers (slice_examples, num_examples, attach_mask, pad_examples) '
        'meet contracts whose top-level postconditions are the property statement: exact order-preserving partition, full '
        'batches except the last, prefix mask, zero padding with unchanged dtype/shape, minimal bucketed final size.',
   note='Trusted: numpy slicing/zeros/arange contracts, TABLE abstraction of Examples, per-example preprocessor hypothesis, '
        'pyvc VC generator and its Python-subset semantics; induction schema for the halving lemma.'),
}
