import sys
sys.path.insert(0,'/verif')
from pyvc import script, core
import importlib
prop, pat = sys.argv[1], sys.argv[2]
mod = importlib.import_module(f'pyvc.props.{prop}')
p = script.Proof(prop) if hasattr(script,'Proof') else None
mod.build(p)
for ob in p.sink.obligations if hasattr(p.sink,'obligations') else p.sink.obs:
  if pat in ob.name or pat in (ob.fn+':'+ob.name):
    print('====', ob.fn, ob.name)
    for h in ob.assumptions: print('  H', h)
    print('  G', ob.goal)
