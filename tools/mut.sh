#!/bin/sh
# experiments on changed trees must not overwrite the committed evidence of the unchanged tree
export VERIF_EVIDENCE_DIR=/tmp/verif-evidence-scratch
# tools/mut.sh <PROP> <file-relative-to-repo> <sed-expression> : run a check on a scratch copy with one mutation
set -e
D=$(mktemp -d /tmp/mut.XXXXXX)
cp -r /repo/fedjax "$D/fedjax"
sed -i "$3" "$D/$2"
if diff -q /repo/$2 "$D/$2" >/dev/null; then echo "MUTATION DID NOT APPLY"; rm -rf "$D"; exit 9; fi
set +e
C15_BSHUF=1 VERIF_REPO="$D" /verif/check "$1" $4 2>&1 | grep -E "VIOLATION|UNDECIDED|OK |failed obligation|CRASH|Error|KNOWN" | head -8
rm -rf "$D"
