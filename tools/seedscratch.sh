#!/bin/sh
# tools/seedscratch.sh <PROP> <patchfile> : run a check against a scratch copy of /repo with the patch applied (never touches /repo)
P=$1; PATCH=$2
D=$(mktemp -d /tmp/seedrun.XXXXXX)
cp -r /repo/fedjax "$D/fedjax"
(cd "$D" && patch -p1 -s < "$PATCH") || { echo "PATCH DOES NOT APPLY"; rm -rf "$D"; exit 9; }
VERIF_EVIDENCE_DIR="$D/evidence" VERIF_REPO="$D" /verif/check "$P" 2>&1 | grep -E "VIOLATION|UNDECIDED|^OK|CRASH" | head -${3:-4}
rm -rf "$D"
