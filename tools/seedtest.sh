#!/bin/sh
# experiments on changed trees must not overwrite the committed evidence of the unchanged tree
export VERIF_EVIDENCE_DIR=/tmp/verif-evidence-scratch
# tools/seedtest.sh <PROP> <patchfile> [demo.py] : apply a seeded change to /repo, run the check (and the demo), undo.
P=$1; PATCH=$2; DEMO=$3
cd /repo || exit 9
git diff --quiet || { echo "repo dirty"; exit 9; }
git apply "$PATCH" || { echo "PATCH DOES NOT APPLY"; exit 9; }
trap 'git -C /repo checkout -- . 2>/dev/null' EXIT INT TERM PIPE
cd /verif
./check "$P" 2>&1 | grep -E "VIOLATION|UNDECIDED|^OK|failed obligation|CRASH|KNOWN" | head -6
echo "check exit: $?"
if [ -n "$DEMO" ]; then (cd /repo && PYTHONPATH=/repo timeout 600 /venv/bin/python "$DEMO" >/tmp/demo.out 2>&1; echo "demo exit with patch: $?"; tail -2 /tmp/demo.out); fi
cd /repo && git checkout -- . && git status --short | head -3
if [ -n "$DEMO" ]; then (cd /repo && PYTHONPATH=/repo timeout 600 /venv/bin/python "$DEMO" >/tmp/demo.out 2>&1; echo "demo exit without patch: $?"); fi
