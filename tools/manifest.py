#!/usr/bin/env python3
"""Regenerates /verif/MANIFEST.json from tools/manifest_data.py and validates it."""
import json, os, sys
HERE = os.path.dirname(os.path.abspath(__file__))
sys.path.insert(0, HERE)
import manifest_data as D

ids = [json.loads(l)['id'] for l in open(os.path.join(HERE, '..', 'properties.jsonl'))]
checks = []
for pid in ids:
  c = D.CLAIMED.get(pid)
  if not c:
    continue
  checks.append({
      'property_id': pid,
      'quick_cmd': f'./check {pid} --tier quick',
      'thorough_cmd': f'./check {pid} --tier thorough',
      'evidence_file': f'/verif/evidence/{pid}.json',
      'replay_cmd_template': f'./check {pid} --replay {{path}}',
      'engine': 'pyvc',
      'level_claimed': {'category': 'proof', 'text': c['text'], 'design_ref': c.get('design_ref', 'DESIGN.md section 5')},
      'level_note': c['note'],
      'technique': c.get('technique', 'contract-based deductive verification: VCs generated from the real function ASTs against sidecar contracts, discharged by z3/cvc5'),
  })
na = [{'property_id': pid, 'reason': D.NOT_APPLICABLE.get(pid, 'check not built yet (work in progress, see DESIGN.md section 5)')}
      for pid in ids if pid not in D.CLAIMED]
m = {
    'version': 1,
    'setup_cmd': './check --selftest',
    'hooks': {'guard': 'GOOGLE_FEDJAX_VERIF',
              'enable': 'no hooks: contracts are sidecar files under /verif/pyvc/props; nothing in /repo is guarded',
              'baseline_off_cmd': 'cd /repo && /venv/bin/python -m pytest -ra -q -p no:cacheprovider --timeout=900 --continue-on-collection-errors',
              'source_commits': D.SOURCE_COMMITS, 'add_only': True},
    'engines': [{'name': 'pyvc', 'path': '/verif/pyvc', 'serves_properties': sorted(D.CLAIMED),
                 'kind_free_text': 'self-built VC generator: symbolic execution (fork-by-replay) of the real function ASTs of /repo, re-read on every run, against sidecar contracts (pre/post, loop invariants, frame, ghost state); obligations discharged by z3 (python API) with cvc5 as second back end; refutations replayed natively under /venv/bin/python'}],
    'checks': checks,
    'notes': D.NOTES,
    'not_applicable': na,
}
json.dump(m, open(os.path.join(HERE, '..', 'MANIFEST.json'), 'w'), indent=1)
try:
  import jsonschema
  jsonschema.validate(m, json.load(open('/root/.vp/MANIFEST.schema.json')))
  print('MANIFEST valid;', len(checks), 'checks,', len(na), 'not claimed')
except ImportError:
  print('written (jsonschema unavailable)')
