#!/usr/bin/env python3
"""tools/mutaudit.py <ID> : kill-audit of the check of one property.

Each listed single-line mutation of /repo is applied to a scratch copy (outside /repo and /verif, removed afterwards) and the
quick check is run on the copy.  'detect' mutants must give exit 1 (VIOLATION), 'equivalent' ones must give exit 0.
Prints one line per mutant and a JSON summary; exit 0 always (an audit of the machinery, not a verdict on the property)."""
import json
import os
import shutil
import subprocess
import sys
import tempfile

VERIF = os.path.dirname(os.path.dirname(os.path.abspath(__file__)))
REPO = os.environ.get('VERIF_REPO', '/repo')


def run(pid):
  muts = json.load(open(os.path.join(VERIF, 'mutants', 'mutants.json'))).get(pid, [])
  out = {'property': pid, 'mutants': len(muts), 'killed': 0, 'equivalent_ok': 0, 'survived': [], 'false_alarm': [],
         'undecided': [], 'other': []}
  for rel, sed, expect in muts:
    d = tempfile.mkdtemp(prefix='mutaudit.')
    try:
      shutil.copytree(os.path.join(REPO, 'fedjax'), os.path.join(d, 'fedjax'))
      subprocess.run(['sed', '-i', sed, os.path.join(d, rel)], check=True)
      same = subprocess.run(['diff', '-q', os.path.join(REPO, rel), os.path.join(d, rel)], capture_output=True).returncode == 0
      if same:
        out['other'].append([sed, 'mutation did not apply'])
        continue
      env = dict(os.environ, VERIF_REPO=d, VERIF_EVIDENCE_DIR=os.path.join(d, 'evidence'))
      env.pop('VERIF_TIER', None)
      r = subprocess.run([os.path.join(VERIF, 'check'), pid], capture_output=True, text=True, env=env, timeout=3600)
      code = r.returncode
      if code == 2:
        out['undecided'].append([sed, expect])       # the changed code is outside the subset: no verdict either way
      elif expect == 'detect':
        if code == 1:
          out['killed'] += 1
        else:
          out['survived'].append([sed, code])
      else:
        if code == 0:
          out['equivalent_ok'] += 1
        else:
          out['false_alarm'].append([sed, code])
      print(f'  mutant [{expect}] exit {code}: {sed[:90]}')
    finally:
      shutil.rmtree(d, ignore_errors=True)
  print('MUTATION-AUDIT ' + json.dumps(out))
  return out


if __name__ == '__main__':
  run(sys.argv[1])
