#!/usr/bin/env python3
"""tools/keepseed.py <PROP> <name> <detected: yes|no|...> "<what it needs>" "<what I ran>" : copies /tmp/seed/<PROP> into /verif/seeded/<name>"""
import json, os, shutil, sys
prop, name, detected, needs, ran = sys.argv[1:6]
src = f'/tmp/seed/{prop}'
dst = f'/verif/seeded/{name}'
os.makedirs(dst, exist_ok=True)
for f in ('patch.diff', 'demo.py', 'notes.md'):
  if os.path.exists(os.path.join(src, f)):
    shutil.copy(os.path.join(src, f), os.path.join(dst, f))
json.dump({'property': prop, 'breaks': open(os.path.join(src, 'notes.md')).read()[:1500] if os.path.exists(os.path.join(src, 'notes.md')) else '',
           'needs_to_manifest': needs, 'what_was_run': ran, 'detected_by_check': detected,
           'source': 'independent sub-agent given only the property text and a scratch worktree'},
          open(os.path.join(dst, 'meta.json'), 'w'), indent=1)
print('kept', dst)
